"""Differential transcript for C05-2 (BaseIsotherm.__init__ / __eq__ refactoring)."""
import logging
import warnings

import numpy
import pandas

import pygaps
from pygaps.core.baseisotherm import BaseIsotherm
from pygaps.modelling import get_isotherm_model

warnings.simplefilter("ignore")
LOG = logging.getLogger('pygaps')
for h in list(LOG.handlers):
    LOG.removeHandler(h)


class _H(logging.Handler):
    def emit(self, record):
        if record.levelno >= logging.WARNING:
            print("  LOG", record.levelname, record.getMessage())


LOG.addHandler(_H())


def show(label, fn):
    try:
        print(label, "->", repr(fn()))
    except BaseException as e:  # noqa
        print(label, "!!", type(e).__name__, str(e))


def describe(iso):
    return (
        type(iso).__name__, list(vars(iso).keys()), {k: (v if k not in ('data_raw', 'model') else type(v).__name__)
                                                      for k, v in vars(iso).items()
                                                      if k not in ('_material', '_adsorbate')},
        str(iso.material), iso.material.to_dict(), str(iso.adsorbate), iso.temperature,
        list(iso.to_dict().items()), iso.units, iso.iso_id, str(iso), repr(iso)
    )


UNITS = dict(
    pressure_mode='absolute', pressure_unit='bar', material_basis='mass', material_unit='g',
    loading_basis='molar', loading_unit='mmol', temperature_unit='K'
)
REQ = dict(material='carbon', adsorbate='N2', temperature=77)


def mk(cls=BaseIsotherm, drop=(), **kw):
    args = {**REQ, **UNITS, **kw}
    for d in drop:
        args.pop(d, None)
    given = dict(args)
    iso = cls(**args)
    # the caller's dict must not be changed (kwargs are copied by the call)
    assert args == given
    return describe(iso)


cases = {}
# plain and shorthands
cases['plain'] = lambda: mk()
cases['short_all'] = lambda: mk(drop=REQ, m='zeo', a='CO2', t=300)
cases['short_override'] = lambda: mk(m='zeo', a='CO2', t=300)
cases['short_falsy'] = lambda: mk(m='', a=None, t=0)
cases['short_falsy_only'] = lambda: mk(drop=REQ, m='', a=None, t=0)
cases['short_t0'] = lambda: mk(drop=['temperature'], t=0)
cases['short_t0.0'] = lambda: mk(t=0.0)
cases['short_tstr'] = lambda: mk(drop=['temperature'], t="298.15")
cases['short_m_dict'] = lambda: mk(drop=['material'], m={'name': 'mof', 'density': 1.5})
cases['short_m_emptydict'] = lambda: mk(drop=['material'], m={})
cases['short_m_material'] = lambda: mk(drop=['material'], m=pygaps.Material('mymat', density=3))
cases['short_a_adsorbate'] = lambda: mk(drop=['adsorbate'], a=pygaps.Adsorbate.find('argon'))
cases['short_t_array'] = lambda: mk(drop=['temperature'], t=numpy.array([1, 2]))
cases['short_t_array1'] = lambda: mk(drop=['temperature'], t=numpy.array([5]))
cases['short_t_list'] = lambda: mk(drop=['temperature'], t=[5])
cases['short_m_only'] = lambda: mk(drop=['material'], m='x')
cases['short_a_only'] = lambda: mk(drop=['adsorbate'], a='neon')
cases['short_unknown_ads'] = lambda: mk(a='unobtainium')
cases['meta_like_short'] = lambda: mk(mm=1, tt=2, aa=3, M='upper')
# missing required
for d in ['material', 'adsorbate', 'temperature']:
    cases[f'missing_{d}'] = lambda d=d: mk(drop=[d])
cases['missing_all'] = lambda: BaseIsotherm()
cases['none_temp'] = lambda: mk(temperature=None)
cases['array_temp'] = lambda: mk(temperature=numpy.array([1, 2]))
cases['bad_temp'] = lambda: mk(temperature='hot')
# missing units -> warnings
for d in UNITS:
    cases[f'nounit_{d}'] = lambda d=d: mk(drop=[d])
cases['nounits_all'] = lambda: mk(drop=list(UNITS))
# invalid values
cases['bad_pmode'] = lambda: mk(pressure_mode='sideways')
cases['bad_lbasis'] = lambda: mk(loading_basis='vibes')
cases['bad_mbasis'] = lambda: mk(material_basis='vibes')
cases['bad_punit'] = lambda: mk(pressure_unit='psi2')
cases['bad_lunit'] = lambda: mk(loading_unit='stone')
cases['bad_munit'] = lambda: mk(material_unit='stone')
cases['bad_tunit'] = lambda: mk(temperature_unit='R')
cases['bad_many'] = lambda: mk(pressure_mode='x', loading_basis='y', material_basis='z', temperature_unit='R')
cases['bad_lbasis_munit'] = lambda: mk(loading_basis='y', material_unit='z')
cases['none_pmode'] = lambda: mk(pressure_mode=None)
cases['int_pmode'] = lambda: mk(pressure_mode=3)
cases['none_punit'] = lambda: mk(pressure_unit=None)
cases['none_lbasis'] = lambda: mk(loading_basis=None)
cases['list_lbasis'] = lambda: mk(loading_basis=['molar'])
cases['none_tunit'] = lambda: mk(temperature_unit=None)
cases['volume_basis'] = lambda: mk(loading_basis='volume')
# valid variants
cases['relative'] = lambda: mk(pressure_mode='relative')
cases['relative%'] = lambda: mk(pressure_mode='relative%', pressure_unit='kPa')
cases['relative_badunit'] = lambda: mk(pressure_mode='relative', pressure_unit='nonsense')
cases['relativeX'] = lambda: mk(pressure_mode='relativeX', pressure_unit='nonsense')
cases['kPa'] = lambda: mk(pressure_unit='kPa')
cases['percent'] = lambda: mk(loading_basis='percent', loading_unit=None, material_unit=None)
cases['fraction_badunits'] = lambda: mk(loading_basis='fraction', loading_unit='zz', material_unit='yy')
cases['fraction_badmbasis'] = lambda: mk(loading_basis='fraction', material_basis='yy')
cases['mass_kg'] = lambda: mk(loading_basis='mass', loading_unit='kg', material_basis='volume', material_unit='cm3')
cases['mass_badunit'] = lambda: mk(loading_basis='mass', loading_unit='mmol')
cases['vol_mat_badunit'] = lambda: mk(material_basis='volume', material_unit='g')
cases['molar_mat'] = lambda: mk(material_basis='molar', material_unit='mol')
cases['volgas'] = lambda: mk(loading_basis='volume_gas', loading_unit='cm3(STP)')
cases['volliq'] = lambda: mk(loading_basis='volume_liquid', loading_unit='cm3')
cases['celsius'] = lambda: mk(temperature=25, temperature_unit='°C')
cases['meta'] = lambda: mk(user='me', n=3, nested={'a': [1, 2]}, date='2020')
cases['meta_reserved'] = lambda: mk(_material='ghost', _temperature=1)
cases['meta_properties'] = lambda: mk(properties={'a': 1})
# subclasses
PL = dict(pressure=[0.1, 0.2, 0.3, 0.25], loading=[1, 2, 3, 2.5])
cases['point'] = lambda: mk(pygaps.PointIsotherm, **PL)
cases['point_short'] = lambda: mk(pygaps.PointIsotherm, drop=REQ, m='zeo', a='CO2', t=300, **PL)
cases['point_nounits'] = lambda: mk(pygaps.PointIsotherm, drop=list(UNITS), **PL)
cases['point_badunit'] = lambda: mk(pygaps.PointIsotherm, loading_unit='stone', **PL)
cases['point_relative'] = lambda: mk(pygaps.PointIsotherm, pressure_mode='relative', **PL)
cases['point_missing'] = lambda: mk(pygaps.PointIsotherm, drop=['adsorbate'], **PL)
cases['model'] = lambda: mk(pygaps.ModelIsotherm, model=get_isotherm_model('Henry'))
cases['model_fit'] = lambda: mk(pygaps.ModelIsotherm, model='Henry', pressure=[1, 2, 3], loading=[2, 4, 6])
cases['model_bad'] = lambda: mk(pygaps.ModelIsotherm, model='Henry', pressure=[1, 2, 3], loading=[2, 4, 6], pressure_mode='zz')

for name, fn in cases.items():
    show(f"case[{name}]", fn)


# a subclass with its own unit table / properties to check attribute protocol is kept
class Strict(BaseIsotherm):
    _unit_params = {**BaseIsotherm._unit_params, 'pressure_unit': 'kPa'}
    order = []

    def __setattr__(self, key, value):
        Strict.order.append(key)
        object.__setattr__(self, key, value)


show("strict", lambda: (describe(Strict(**REQ)), Strict.order))
Strict.order.clear()
show("strict_bad", lambda: describe(Strict(**REQ, pressure_mode=5)))
print("strict_bad order", Strict.order)
Strict.order.clear()
show("strict_bad2", lambda: describe(Strict(**REQ, **{**UNITS, 'material_basis': 'qq'})))
print("strict_bad2 order", Strict.order)


class Fewer(BaseIsotherm):
    _unit_params = {'pressure_mode': 'absolute', 'pressure_unit': 'bar', 'loading_basis': 'molar'}


show("fewer", lambda: describe(Fewer(**REQ)))
show("fewer_given", lambda: describe(Fewer(**REQ, **UNITS)))

# --- equality
base = BaseIsotherm(**REQ, **UNITS)
same = BaseIsotherm(m='carbon', a='N2', t=77.0, **UNITS)
other = BaseIsotherm(**{**REQ, 'temperature': 78}, **UNITS)
meta = BaseIsotherm(**REQ, **UNITS, user=1)
point = pygaps.PointIsotherm(**PL, **REQ, **UNITS)
point2 = pygaps.PointIsotherm(pressure=numpy.array(PL['pressure']), loading=numpy.array(PL['loading']), **REQ, **UNITS)
point3 = pygaps.PointIsotherm(pressure=PL['pressure'], loading=[1, 2, 3, 2.6], **REQ, **UNITS)
model = pygaps.ModelIsotherm(model=get_isotherm_model('Henry'), **REQ, **UNITS)
objs = dict(base=base, same=same, other=other, meta=meta, point=point, point2=point2, point3=point3, model=model)
for a, x in objs.items():
    for b, y in objs.items():
        show(f"eq[{a},{b}]", lambda: (x == y, x != y, x.__eq__(y)))


class HasId:
    iso_id = base.iso_id


class Loud:
    calls = []

    def __init__(self, tag):
        self.tag = tag

    @property
    def iso_id(self):
        Loud.calls.append(self.tag)
        return "x"


show("eq[base,HasId]", lambda: base == HasId())
show("eq[base,None]", lambda: base == None)  # noqa
show("eq[base,1]", lambda: base == 1)
show("eq[base,str]", lambda: base == "abc")
show("ne[base,None]", lambda: base != None)  # noqa
show("in list", lambda: (base in [same], base in [other, meta], [same].index(base)))
show("in list mixed", lambda: base in [1, same])
show("eq unbound order", lambda: (BaseIsotherm.__eq__(Loud('L'), Loud('R')), Loud.calls))
bad = pygaps.PointIsotherm(**PL, **REQ, **UNITS, user={1, 2})
show("eq[bad,base]", lambda: bad == base)
show("eq[base,bad]", lambda: base == bad)
show("hashable", lambda: hash(base))
