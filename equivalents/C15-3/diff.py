"""Differential script for change 3: alpha_s_raw (section selection / fit collection)."""
import logging
import warnings
from pathlib import Path

import numpy

import pygaps
import pygaps.parsing as pgp
from pygaps.characterisation import alphas_plots as ap

warnings.filterwarnings("ignore")

ROOT = Path(__file__).resolve().parent.parent
DATA = ROOT / 'docs' / 'examples' / 'data' / 'characterisation'


class ListHandler(logging.Handler):
    def __init__(self):
        super().__init__()
        self.msgs = []

    def emit(self, record):
        self.msgs.append(f"{record.levelname}:{record.getMessage()}")


HANDLER = ListHandler()
pygaps.logger.addHandler(HANDLER)
pygaps.logger.propagate = False


def canon(obj):
    if isinstance(obj, dict):
        return "{" + ", ".join(f"{k!r}: {canon(v)}" for k, v in sorted(obj.items(), key=lambda kv: str(kv[0]))) + "}"
    if isinstance(obj, numpy.ndarray):
        return f"array<{obj.dtype}>[" + ", ".join(canon(v) for v in obj.tolist()) + "]"
    if isinstance(obj, (list, tuple)):
        return type(obj).__name__ + "(" + ", ".join(canon(v) for v in obj) + ")"
    if isinstance(obj, (bool, numpy.bool_)):
        return f"{type(obj).__name__}:{bool(obj)}"
    if isinstance(obj, (int, numpy.integer)):
        return f"{type(obj).__name__}:{int(obj)}"
    if isinstance(obj, (float, numpy.floating)):
        return f"{type(obj).__name__}:{float(obj):.12g}"
    return f"{type(obj).__name__}:{obj!r}"


def run(label, func, *args, **kwargs):
    HANDLER.msgs.clear()
    try:
        res = canon(func(*args, **kwargs))
    except Exception as err:  # noqa
        res = f"EXC {type(err).__name__}: {err}"
    print(f"--- {label}")
    print(res)
    for msg in HANDLER.msgs:
        print("   log:", msg)



FILES = {p.stem.split(' N2')[0]: p for p in sorted(DATA.glob('*.json'))}


def load(name, **kw):
    iso = pgp.isotherm_from_json(FILES[name])
    if kw:
        iso.convert(**kw)
    return iso


def model_ref(**kw):
    return pygaps.ModelIsotherm.from_pointisotherm(load('SiO2', **kw), model='BET')


isos = {name: load(name) for name in FILES}
mref = model_ref()

# 1. every sample against every reference, automatic sections
for name, iso in isos.items():
    run(f"alpha_s {name} ref=model", ap.alpha_s, iso, mref)
    for rname, ref in isos.items():
        run(f"alpha_s {name} ref={rname}", ap.alpha_s, iso, ref)

# 2. manual limits, reducing pressure, reference areas, branches
mcm, sio2 = isos['MCM-41'], isos['SiO2']
for lim in [None, (0.3, 0.8), (0, 0.5), (0.5, 10), (0.9, 0.91), (2, 1), (5, 6), [0.2, 1.5], (-1, 100), [0.7, 1.0]]:
    run(f"alpha_s MCM-41/model t_limits={lim}", ap.alpha_s, mcm, mref, t_limits=lim)
    run(f"alpha_s MCM-41/self t_limits={lim}", ap.alpha_s, mcm, mcm, t_limits=lim)
    run(f"alpha_s Takeda/model t_limits={lim}", ap.alpha_s, isos['Takeda 5A'], mref, t_limits=lim)
for rp in [0.4, 0.1, 0.9, 0.0, 1.0, 1.5, -0.2, 0.999]:
    run(f"alpha_s reducing_pressure={rp}", ap.alpha_s, mcm, mref, reducing_pressure=rp)
    run(f"alpha_s self reducing_pressure={rp}", ap.alpha_s, mcm, mcm, reducing_pressure=rp)
for ra in ['BET', 'bet', 'langmuir', 'Langmuir', 200.0, 1.0, 200, 'bogus', None]:
    run(f"alpha_s reference_area={ra!r}", ap.alpha_s, mcm, mcm, reference_area=ra)
    run(f"alpha_s reference_area={ra!r} lim", ap.alpha_s, mcm, mcm, reference_area=ra, t_limits=(0.3, 0.8))
    run(f"alpha_s model reference_area={ra!r}", ap.alpha_s, mcm, mref, reference_area=ra)
for br, brr in [('ads', 'ads'), ('des', 'ads'), ('ads', 'des'), ('des', 'des'), ('bogus', 'ads'), ('ads', 'bogus')]:
    run(f"alpha_s branch={br} branch_ref={brr}", ap.alpha_s, mcm, mref, branch=br, branch_ref=brr)
    run(f"alpha_s SiO2/SiO2 branch={br} branch_ref={brr}", ap.alpha_s, sio2, sio2, branch=br, branch_ref=brr)
    run(f"alpha_s SiO2/SiO2 lim branch={br} branch_ref={brr}", ap.alpha_s, sio2, sio2, branch=br, branch_ref=brr, t_limits=(0.3, 1.2))
run("alpha_s no reference", ap.alpha_s, mcm, None)
run("alpha_s reference not isotherm", ap.alpha_s, mcm, "SiO2")
wrong = load('SiO2')
wrong.adsorbate = 'argon'
run("alpha_s different adsorbate", ap.alpha_s, mcm, wrong)

# 3. stored unit representations of sample and reference
conversions = [
    {},
    {'pressure_unit': 'Pa'},
    {'pressure_unit': 'torr'},
    {'pressure_mode': 'relative'},
    {'pressure_mode': 'relative%'},
    {'loading_unit': 'mol'},
    {'loading_basis': 'mass', 'loading_unit': 'g'},
    {'loading_basis': 'volume_gas', 'loading_unit': 'cm3'},
    {'loading_basis': 'volume_liquid', 'loading_unit': 'cm3'},
    {'loading_basis': 'percent'},
    {'material_unit': 'kg'},
]
for c_iso in conversions:
    for c_ref in conversions:
        try:
            a, b, c = load('MCM-41', **c_iso), load('MCM-41', **c_ref), model_ref(**c_ref)
        except Exception as err:  # noqa
            print(f"--- convert {c_iso} {c_ref}: EXC {type(err).__name__}: {err}")
            continue
        run(f"alpha_s conv iso={c_iso} selfref={c_ref}", ap.alpha_s, a, b)
        run(f"alpha_s conv iso={c_iso} selfref={c_ref} lim", ap.alpha_s, a, b, t_limits=(0.3, 0.8))
        run(f"alpha_s conv iso={c_iso} modelref={c_ref}", ap.alpha_s, a, c)

# 4. raw function, synthetic inputs
rng = numpy.random.default_rng(15)
p = numpy.linspace(0.01, 0.95, 40)
ref = 2 * 80 * p / (1 - p) / (1 - p + 80 * p)
raw_cases = {
    'same shape x3': (3 * ref, ref),
    'offset': (3 * ref + 4, ref),
    'microporous': (5 * 200 * p / (1 + 200 * p) + 0.5 * ref, ref),
    'steep (slope check fails)': (numpy.exp(8 * p), ref),
    'very steep end': (numpy.where(p > 0.8, 1000 * ref, ref), ref),
    'noisy': (3 * ref * (1 + 0.02 * rng.standard_normal(40)), ref),
    'lists': ((3 * ref).tolist(), ref.tolist()),
    'short': (numpy.array([1.0, 2.0, 3.0]), numpy.array([0.5, 1.0, 1.5])),
    'five pts': (numpy.array([1.0, 2.0, 3.0, 4.0, 5.0]), numpy.array([0.5, 1.0, 1.5, 2.0, 2.5])),
    'single': (numpy.array([1.0]), numpy.array([0.5])),
    'empty': (numpy.array([]), numpy.array([])),
    'empty lists': ([], []),
    'mismatch': (3 * ref, ref[:-1]),
    'with nan': (numpy.where(numpy.arange(40) == 10, numpy.nan, 3 * ref), ref),
    'constant loading': (numpy.full(40, 2.0), ref),
    'decreasing': (3 * ref[::-1], ref),
    'scaled x1000': (3000 * ref, ref),
    'ref scaled x1000': (3 * ref, 1000 * ref),
}
for name, (l, r) in raw_cases.items():
    for lim in [None, (0.3, 0.8), (0, 100), (0.5, 0.51), (3, 2), (50, 60), [0.1, 1.0]]:
        run(f"alpha_s_raw {name} t_limits={lim}", ap.alpha_s_raw, l, r, 1.9, 250.0, 0.808, 28.0134, lim)
run("alpha_s_raw default t_limits", ap.alpha_s_raw, 3 * ref, ref, 1.9, 250.0, 0.808, 28.0134)
run("alpha_s_raw kw", ap.alpha_s_raw, loading=3 * ref, reference_loading=ref, alpha_s_point=1.9, reference_area=250.0, liquid_density=0.808, adsorbate_molar_mass=28.0134, t_limits=(0.2, 1))
run("alpha_s_raw zero alpha point", ap.alpha_s_raw, 3 * ref, ref, 0.0, 250.0, 0.808, 28.0134)
run("alpha_s_raw int area", ap.alpha_s_raw, 3 * ref, ref, 1.9, numpy.float64(250), 0.808, 28.0134, (0.2, 1))
run("alpha_s_raw python float area", ap.alpha_s_raw, 3 * ref, ref, 1.9, 250.0, 0.808, 28.0134, (0.2, 1))
run("alpha_s_plot_parameters", ap.alpha_s_plot_parameters, ref / 1.9, 3 * ref, numpy.arange(5, 20), 1.9, 250.0, 28.0134, 0.808)
run("alpha_s_plot_parameters steep", ap.alpha_s_plot_parameters, ref / 1.9, numpy.exp(8 * p), numpy.arange(30, 40), 1.9, 250.0, 28.0134, 0.808)
