"""Differential script for C04-2 (PointIsotherm interpolator cache check extracted into a helper).

Run with PYTHONPATH=<tree>/src; prints a deterministic transcript.
"""
import logging
import warnings

import numpy

warnings.simplefilter("ignore")

import pygaps
from pygaps.utilities.isotherm_interpolator import IsothermInterpolator

logging.getLogger("pygaps").setLevel(logging.ERROR)


def fmt(val):
    """Exact, deterministic representation."""
    if isinstance(val, numpy.ndarray):
        return f"ndarray{val.shape}{val.dtype}" + repr([fmt(v) for v in val.ravel().tolist()])
    if isinstance(val, (float, numpy.floating)):
        return float(val).hex() if numpy.isfinite(val) else repr(float(val))
    if isinstance(val, (list, tuple)):
        return type(val).__name__ + repr([fmt(v) for v in val])
    if isinstance(val, dict):
        return repr({k: fmt(v) for k, v in val.items()})
    return repr(val)


def show(label, fn):
    try:
        res = fn()
        print(label, "->", type(res).__name__, fmt(res))
    except Exception as err:  # noqa
        print(label, "!!", type(err).__name__, str(err)[:300])


def state(iso):
    """Observable state of an isotherm, including cache settings."""
    out = [fmt(iso.to_dict()), fmt(iso.data_raw.values), repr(list(iso.data_raw.columns))]
    for name in ("l_interpolator", "p_interpolator"):
        itp = getattr(iso, name)
        if itp is None:
            out.append(f"{name}=None")
        else:
            out.append(
                f"{name}=({itp.interp_branch!r},{itp.interp_kind!r},{fmt(itp.interp_fill)},"
                f"{hasattr(itp, 'interp_fun')},{sorted(vars(itp))})"
            )
    return " | ".join(out)


# ---------------------------------------------------------------- via PointIsotherm
pres = [0.01, 0.05, 0.1, 0.2, 0.4, 0.6, 0.8, 0.95, 0.7, 0.5, 0.3, 0.1]
load = [0.5, 1.2, 1.8, 2.4, 3.0, 3.3, 3.6, 4.5, 3.9, 3.5, 3.0, 2.0]


def make():
    return pygaps.PointIsotherm(
        pressure=pres,
        loading=load,
        material='carbon-x',
        adsorbate='N2',
        temperature=77.355,
        pressure_mode='relative',
        loading_basis='molar',
        loading_unit='mmol',
        material_basis='mass',
        material_unit='g',
    )


iso = make()
print("fresh", state(iso))
calls = [
    ("l ads lin", lambda i: i.loading_at(0.3)),
    ("l ads lin oob", lambda i: i.loading_at(0.99)),
    ("l ads fill", lambda i: i.loading_at([0.001, 0.3, 0.99], interp_fill=0.0)),
    ("l ads fill tuple", lambda i: i.loading_at([0.001, 0.3, 0.99], interp_fill=(0.0, 4.5))),
    ("l ads extrap", lambda i: i.loading_at([0.001, 0.3, 0.99], interp_fill="extrapolate")),
    ("l ads cubic", lambda i: i.loading_at([0.02, 0.3, 0.9], interpolation_type='cubic')),
    ("l ads bogus", lambda i: i.loading_at(0.3, interpolation_type='bogus')),
    ("l des lin", lambda i: i.loading_at([0.2, 0.6], branch='des')),
    ("l des fill", lambda i: i.loading_at([0.05, 0.6, 0.99], branch='des', interp_fill=1.0)),
    ("l bad branch", lambda i: i.loading_at(0.3, branch='sideways')),
    ("l units", lambda i: i.loading_at(0.3, loading_unit='mol', material_unit='kg')),
    ("l ads lin again", lambda i: i.loading_at(0.3)),
    ("p ads lin", lambda i: i.pressure_at(2.0)),
    ("p ads lin oob", lambda i: i.pressure_at(10.0)),
    ("p ads fill", lambda i: i.pressure_at([0.1, 2.0, 10.0], interp_fill=0.5)),
    ("p ads next", lambda i: i.pressure_at([0.6, 2.0], interpolation_type='next')),
    ("p des", lambda i: i.pressure_at([2.5, 3.7], branch='des')),
    ("p des extrap", lambda i: i.pressure_at([1.0, 5.0], branch='des', interp_fill='extrapolate')),
    ("p ads lin again", lambda i: i.pressure_at(2.0)),
    ("spread", lambda i: i.spreading_pressure_at(0.5)),
    ("spread oob", lambda i: i.spreading_pressure_at(0.99)),
    ("spread fill", lambda i: i.spreading_pressure_at(0.99, interp_fill=4.5)),
    ("spread des", lambda i: i.spreading_pressure_at(0.5, branch='des')),
]
for label, fn in calls:
    show("chain " + label, lambda: fn(iso))
    print("   state", state(iso))
# each call on a fresh isotherm gives the same value as in the chain
for label, fn in calls:
    fresh = make()
    show("fresh " + label, lambda: fn(fresh))
# reversed chain
iso = make()
for label, fn in reversed(calls):
    show("rev " + label, lambda: fn(iso))
print("final", state(iso))


# ---------------------------------------------------------------- cache replacement tracking
class Weird:
    """Fill-like object whose comparisons are observable."""
    def __init__(self, log):
        self.log = log

    def __ne__(self, other):
        self.log.append("ne")
        return False

    def __eq__(self, other):
        self.log.append("eq")
        return True

    __hash__ = None


def track(iso, label, fn):
    before = (iso.l_interpolator, iso.p_interpolator)
    show("track " + label, lambda: fn(iso))
    after = (iso.l_interpolator, iso.p_interpolator)
    print(
        "   replaced l/p:", before[0] is not after[0], before[1] is not after[1], "|",
        state(iso).split(" | ", 3)[3]
    )


nan = float("nan")
arr2 = numpy.array([0.0, 4.5])
steps = [
    ("l default", lambda i: i.loading_at(0.3)),
    ("l default repeat", lambda i: i.loading_at([0.3, 0.5])),
    ("l kind change", lambda i: i.loading_at(0.3, interpolation_type='quadratic')),
    ("l kind same", lambda i: i.loading_at(0.31, interpolation_type='quadratic')),
    ("l branch change", lambda i: i.loading_at(0.3, branch='des', interpolation_type='quadratic')),
    ("l fill 0 (int)", lambda i: i.loading_at(0.3, branch='des', interpolation_type='quadratic', interp_fill=0)),
    ("l fill 0.0 (== 0)", lambda i: i.loading_at(0.99, branch='des', interpolation_type='quadratic', interp_fill=0.0)),
    ("l fill False (== 0)", lambda i: i.loading_at(0.99, branch='des', interpolation_type='quadratic', interp_fill=False)),
    ("l fill nan", lambda i: i.loading_at([0.3, 0.99], interp_fill=nan)),
    ("l fill nan again (nan != nan)", lambda i: i.loading_at([0.3, 0.99], interp_fill=nan)),
    ("l fill tuple", lambda i: i.loading_at([0.001, 0.99], interp_fill=(0.0, 4.5))),
    ("l fill equal list-vs-tuple", lambda i: i.loading_at([0.001, 0.99], interp_fill=[0.0, 4.5])),
    ("l fill tuple again", lambda i: i.loading_at([0.001, 0.99], interp_fill=(0.0, 4.5))),
    ("l fill array vs tuple (ambiguous truth)", lambda i: i.loading_at([0.001, 0.99], interp_fill=arr2)),
    ("l after failed compare", lambda i: i.loading_at([0.001, 0.99], interp_fill=(0.0, 4.5))),
    ("l fill str", lambda i: i.loading_at([0.001, 0.99], interp_fill='extrapolate')),
    ("l fill array vs str", lambda i: i.loading_at([0.001, 0.99], interp_fill=numpy.array(2.0))),
    ("l fill 0-d array again", lambda i: i.loading_at([0.001, 0.99], interp_fill=numpy.array(2.0))),
    ("l fill 2.0 vs 0-d array", lambda i: i.loading_at([0.001, 0.99], interp_fill=2.0)),
    ("l bad kind (ctor fails)", lambda i: i.loading_at(0.3, interpolation_type='bogus')),
    ("l after failed ctor", lambda i: i.loading_at([0.001, 0.99], interp_fill=2.0)),
    ("l bad branch (data fails)", lambda i: i.loading_at(0.3, branch='up')),
    ("l branch None", lambda i: i.loading_at(0.3, branch=None)),
    ("l branch all", lambda i: i.loading_at(0.3, branch='all')),
    ("l kind int 1", lambda i: i.loading_at(0.3, interpolation_type=1)),
    ("l kind True (== 1)", lambda i: i.loading_at(0.3, interpolation_type=True)),
    ("p default", lambda i: i.pressure_at(2.0)),
    ("p default repeat", lambda i: i.pressure_at([2.0, 2.5])),
    ("p kind change", lambda i: i.pressure_at(2.0, interpolation_type='nearest')),
    ("p branch change", lambda i: i.pressure_at(2.5, branch='des', interpolation_type='nearest')),
    ("p fill", lambda i: i.pressure_at([0.1, 9.0], branch='des', interpolation_type='nearest', interp_fill=(0.0, 1.0))),
    ("p fill same", lambda i: i.pressure_at([0.1, 9.0], branch='des', interpolation_type='nearest', interp_fill=(0.0, 1.0))),
    ("p fill array vs tuple", lambda i: i.pressure_at([0.1], branch='des', interpolation_type='nearest', interp_fill=numpy.array([0.0, 1.0]))),
    ("p fill nan", lambda i: i.pressure_at([0.1, 2.0], interp_fill=nan)),
    ("p fill nan again", lambda i: i.pressure_at([0.1, 2.0], interp_fill=nan)),
    ("p unit error after cache", lambda i: i.pressure_at(2.0, loading_basis='mass')),
    ("p bad kind", lambda i: i.pressure_at(2.0, interpolation_type='bogus')),
    ("l untouched by p", lambda i: i.loading_at(0.3, interpolation_type=True)),
    ("spreading (uses l cache, fill None)", lambda i: i.spreading_pressure_at(0.5)),
    ("spreading fill", lambda i: i.spreading_pressure_at(0.99, interp_fill=4.5)),
    ("spreading des", lambda i: i.spreading_pressure_at(0.5, branch='des', interp_fill=4.5)),
]
iso = make()
for label, fn in steps:
    track(iso, label, fn)
print("after steps", state(iso))

# conversions reset the caches
for conv in (
    lambda i: i.convert_pressure(mode_to='absolute', unit_to='bar'),
    lambda i: i.convert_loading(basis_to='mass', unit_to='g'),
    lambda i: i.convert_material(basis_to='mass', unit_to='kg'),
):
    track(iso, "pre-conv l", lambda i: i.loading_at(iso.pressure(branch='ads')[3]))
    track(iso, "pre-conv p", lambda i: i.pressure_at(iso.loading(branch='ads')[3]))
    track(iso, "convert", conv)
    track(iso, "post-conv l", lambda i: i.loading_at(iso.pressure(branch='ads')[3]))
    track(iso, "post-conv p", lambda i: i.pressure_at(iso.loading(branch='ads')[3]))
print("after conversions", state(iso))

# observable comparison protocol on the fill value: number and kind of comparisons
log = []
weird = Weird(log)
iso = make()
for n, (label, fn) in enumerate([
    ("weird first", lambda i: i.loading_at(0.3, interp_fill=weird)),
    ("weird second", lambda i: i.loading_at(0.3, interp_fill=weird)),
    ("weird then float", lambda i: i.loading_at(0.3, interp_fill=1.0)),
    ("float then weird", lambda i: i.loading_at(0.3, interp_fill=weird)),
    ("weird, other branch", lambda i: i.loading_at(0.3, branch='des', interp_fill=weird)),
    ("weird, other kind", lambda i: i.loading_at(0.3, branch='des', interpolation_type='zero', interp_fill=weird)),
    ("weird p first", lambda i: i.pressure_at(2.0, interp_fill=weird)),
    ("weird p second", lambda i: i.pressure_at(2.0, interp_fill=weird)),
]):
    before = (iso.l_interpolator, iso.p_interpolator)
    try:
        res = fn(iso)
        out = type(res).__name__
    except Exception as err:  # noqa
        out = "!! " + type(err).__name__ + " " + str(err)[:200]
    print("weird", label, out, "replaced:", before[0] is not iso.l_interpolator, before[1] is not iso.p_interpolator, "log:", log)
    del log[:]

# a cached interpolator that is not an IsothermInterpolator / lacks attributes
iso = make()
iso.l_interpolator = object()
show("foreign cache object", lambda: iso.loading_at(0.3))
iso.l_interpolator = False
show("falsy-but-not-None cache object", lambda: iso.loading_at(0.3))
iso.l_interpolator = None
show("reset to None", lambda: iso.loading_at(0.3))

# isotherm with a single branch only, and model-derived isotherm
iso1 = pygaps.PointIsotherm(
    pressure=[1, 2, 3, 4], loading=[1, 2, 2.5, 2.75], material='m', adsorbate='CO2', temperature=300
)
for label, fn in [
    ("single ads", lambda i: i.loading_at(2.5)),
    ("single des (no data)", lambda i: i.loading_at(2.5, branch='des')),
    ("single ads after des failure", lambda i: i.loading_at(2.5)),
    ("single p des (no data)", lambda i: i.pressure_at(2.2, branch='des')),
    ("single p ads", lambda i: i.pressure_at(2.2)),
]:
    track(iso1, label, fn)
