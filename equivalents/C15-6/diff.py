"""Differential script for change 2: alpha_s_raw section fitting (merged blocks)."""
import numpy

from eqcommon import N77_NAMES, load_n77, run

import pygaps
import pygaps.characterisation.alphas_plots as als

CONVERSIONS = [
    {},
    {"pressure_unit": "Pa"},
    {"pressure_mode": "relative"},
    {"pressure_mode": "relative%"},
    {"loading_unit": "mol"},
    {"loading_basis": "mass", "loading_unit": "g"},
    {"loading_basis": "volume_gas", "loading_unit": "cm3"},
    {"material_unit": "kg"},
    {"pressure_unit": "torr", "loading_basis": "volume_liquid", "loading_unit": "cm3", "material_unit": "mg"},
]


def converted(name, conv):
    iso = load_n77(name)  # fresh object (isotherms holding a CoolProp state cannot be deep-copied)
    if conv:
        iso.convert(**conv)
    return iso


def main():
    isos = {n: load_n77(n) for n in N77_NAMES}
    ref = isos["SiO2"]
    mref = pygaps.ModelIsotherm.from_pointisotherm(ref, model="BET")

    # 1. public entry point: sample and reference in several representations
    for name, iso in isos.items():
        for conv in CONVERSIONS:
            run(f"alpha_s {name} sample {conv} / model ref", als.alpha_s, converted(name, conv), mref)
            run(f"alpha_s {name} / point ref {conv}", als.alpha_s, iso, converted("SiO2", conv))
        for lim in [(0.3, 0.8), (0.5, 2.0), (0, 1), (1, 0), (5, 6), (None, 1), [0.1, 10]]:
            run(f"alpha_s {name} t_limits={lim}", als.alpha_s, iso, mref, t_limits=lim)
            run(f"alpha_s {name} point ref t_limits={lim}", als.alpha_s, iso, ref, t_limits=lim)
        for kw in [
            {"reference_area": "langmuir"},
            {"reference_area": 20.0},
            {"reference_area": "BET", "reducing_pressure": 0.2},
            {"reducing_pressure": 0.9},
            {"branch": "des"},
            {"branch": "des", "branch_ref": "des"},
            {"branch_ref": "des"},
            {"reference_area": 5},
            {"reducing_pressure": 1.0},
        ]:
            run(f"alpha_s {name} {kw}", als.alpha_s, iso, ref, **kw)
            run(f"alpha_s {name} model ref {kw}", als.alpha_s, iso, mref, **kw)

    # 2. raw function on synthetic data
    rng = numpy.random.default_rng(2)
    for i in range(14):
        n = int(rng.integers(4, 50))
        ref_l = numpy.cumsum(rng.uniform(0.01, 1, n))
        kind = i % 4
        if kind == 0:  # straight line through origin
            load = 3.0 * ref_l
        elif kind == 1:  # line + offset (micropores)
            load = 0.5 * ref_l + 4
        elif kind == 2:  # two regimes
            load = numpy.where(ref_l < ref_l[n // 2], 5 * ref_l, 5 * ref_l[n // 2] + 0.3 * (ref_l - ref_l[n // 2]))
        else:  # noise
            load = numpy.cumsum(rng.uniform(0, 1, n)) + rng.normal(0, 0.2, n)
        point = float(ref_l[n // 2])
        for lim in (None, (0.2, 1.5), (0.9, 1.1), (100, 200)):
            for scale in (1.0, 1e-3, 250.0):
                run(
                    f"raw synthetic {i} n={n} kind={kind} lim={lim} scale={scale}", als.alpha_s_raw, load * scale,
                    ref_l, point, 25.0, 0.808, 28.0134, lim
                )
        run(f"raw synthetic lists {i}", als.alpha_s_raw, list(load), list(ref_l), point, 25.0, 0.808, 28.0134)

    # 3. edge cases
    base_ref = numpy.linspace(0.1, 5, 25)
    edge = {
        "empty": ([], []),
        "length mismatch": ([1.0, 2.0, 3.0], [1.0, 2.0]),
        "single point": ([1.0], [1.0]),
        "two points": ([1.0, 2.0], [1.0, 2.0]),
        "steep slope (rejected)": (list(base_ref * 1e4 - 4e4), list(base_ref)),
        "exponential (rejected sections)": (list(numpy.exp(3 * base_ref)), list(base_ref)),
        "constant loading": ([2.0] * 25, list(base_ref)),
        "constant reference": (list(base_ref), [2.0] * 25),
        "nan inside": ([1.0, 2.0, numpy.nan, 4.0, 5.0, 6.0, 7.0], [1.0, 2.0, 3.0, 4.0, 5.0, 6.0, 7.0]),
        "zeros": ([0.0] * 8, [0.0] * 8),
        "negative": ([-1.0, -2.0, -3.0, -4.0, -5.0, -6.0], [1.0, 2.0, 3.0, 4.0, 5.0, 6.0]),
    }
    for label, (load, ref_l) in edge.items():
        for lim in (None, (0.2, 1.5), (0, 100), (3, 2), (None, None), (1,), 7):
            run(f"raw edge {label} lim={lim!r}", als.alpha_s_raw, load, ref_l, 2.5, 25.0, 0.808, 28.0134, lim)

    # 4. parameter helper directly
    ac = base_ref / 2.5
    ld = 2 * base_ref + 1
    for section in ([0, 1, 2, 3], numpy.arange(5, 20), slice(3, 12), [], [4]):
        run(
            f"plot_parameters section={section!r}", als.alpha_s_plot_parameters, ac, ld, section, 2.5, 25.0, 28.0134,
            0.808
        )


if __name__ == "__main__":
    main()
