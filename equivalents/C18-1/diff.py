"""Differential script for change 1: psd_dft_kernel_fit (objective / optimiser set-up / post-processing)."""
import os
import warnings

for _var in ("OMP_NUM_THREADS", "OPENBLAS_NUM_THREADS", "MKL_NUM_THREADS"):
    os.environ[_var] = "1"

import numpy
import pandas

warnings.filterwarnings("ignore")

import pygaps.characterisation.psd_kernel as psdk
from pygaps.data import KERNELS

HERE = os.path.dirname(os.path.abspath(__file__))
KPATH = KERNELS['DFT-N2-77K-carbon-slit']


def fmt(value):
    """Canonical text of a value."""
    if isinstance(value, (tuple, list)):
        return "[" + ", ".join(fmt(v) for v in value) + "]"
    if isinstance(value, numpy.ndarray):
        return (
            f"array(dtype={value.dtype}, shape={value.shape}, "
            f"[{', '.join('%.12g' % v for v in value.ravel())}])"
        )
    if isinstance(value, (float, numpy.floating)):
        return "%.12g" % value
    return repr(value)


def run(label, func, *args, **kwargs):
    try:
        res = func(*args, **kwargs)
        print(f"{label}: OK {fmt(res)}")
        return res
    except Exception as err:  # noqa
        print(f"{label}: EXC {type(err).__name__}: {err}")
        if err.__cause__ is not None:
            print(f"{label}:   cause {type(err.__cause__).__name__}: {err.__cause__}")
        return None


raw = pandas.read_csv(KPATH, index_col=0)
kp = raw.index.values.astype(float)  # kernel pressures
kmat = raw.values.astype(float)  # (n_pressure, n_pores)
npores = kmat.shape[1]
rng = numpy.random.default_rng(20240518)


def interp_points(pressure):
    kern = psdk._load_kernel(KPATH)
    return numpy.asarray([kern[s](pressure) for s in kern])


def combo(pressure, weights):
    return (interp_points(pressure) * weights[:, None]).sum(axis=0)


# ---- weight vectors
weights = {}
w = numpy.zeros(npores)
weights['zero'] = w
for idx in (0, 5, 30, 50, 76):
    w = numpy.zeros(npores)
    w[idx] = 0.02 * (1 + idx / 10)
    weights[f'single{idx}'] = w
w = numpy.zeros(npores)
w[[3, 20, 60]] = [0.01, 0.03, 0.005]
weights['sparse3'] = w
w = numpy.zeros(npores)
w[[10, 11, 12, 40, 41, 75]] = [0.004, 0.01, 0.004, 0.02, 0.02, 0.001]
weights['sparse6'] = w
weights['dense_uniform'] = numpy.full(npores, 0.001)
weights['dense_random'] = rng.uniform(0, 0.004, npores)
weights['dense_gauss'] = 0.01 * numpy.exp(-0.5 * ((numpy.arange(npores) - 35) / 6.0)**2)
weights['tiny'] = rng.uniform(0, 1e-9, npores)
weights['large'] = rng.uniform(0, 5, npores)

# ---- pressure grids
grids = {
    'kernel_all': kp,
    'kernel_every3': kp[::3],
    'kernel_first40': kp[:40],
    'kernel_last40': kp[-40:],
    'log60': numpy.logspace(-6, numpy.log10(0.99), 60),
    'log15': numpy.logspace(-5, -1, 15),
    'lin25': numpy.linspace(0.001, 0.995, 25),
    'random30': numpy.sort(rng.uniform(1e-6, 0.99, 30)),
    'with_zero': numpy.concatenate(([0.0], numpy.logspace(-6, -0.01, 20))),
    'three': numpy.array([1e-4, 1e-2, 0.5]),
    'two': numpy.array([1e-3, 0.3]),
    'one': numpy.array([0.1]),
    'unsorted': numpy.array([0.5, 1e-4, 0.1, 1e-2, 0.9, 1e-5]),
    'duplicated': numpy.array([1e-4, 1e-4, 1e-2, 1e-2, 0.5, 0.5]),
}

# ---- main sweep: exact combinations
case = 0
for gname, grid in grids.items():
    for wname in ('zero', 'single5', 'single50', 'sparse3', 'dense_random'):
        order = case % 4
        case += 1
        load = combo(grid, weights[wname])
        run(f"fit[{gname}|{wname}|k={order}]", psdk.psd_dft_kernel_fit, grid, load, KPATH, order)

# all weights on full grid, all orders
for wname, wvec in weights.items():
    load = combo(kp, wvec)
    for order in (0, 1, 2, 3):
        run(f"full[{wname}|k={order}]", psdk.psd_dft_kernel_fit, kp, load, KPATH, order)

# default order argument + odd orders
load = combo(grids['log60'], weights['sparse6'])
run("default_order", psdk.psd_dft_kernel_fit, grids['log60'], load, KPATH)
for order in (-1, 4, 5, True, numpy.int64(2)):  # (orders > 5 crash FITPACK on the clean tree too)
    run(f"odd_order[{order!r}]", psdk.psd_dft_kernel_fit, grids['log60'], load, KPATH, order)
run("order_float", psdk.psd_dft_kernel_fit, grids['log60'], load, KPATH, 2.0)
run("order_none", psdk.psd_dft_kernel_fit, grids['log60'], load, KPATH, None)

# noisy / non-representable inputs
noisy = load * (1 + 0.02 * rng.standard_normal(len(load)))
run("noisy", psdk.psd_dft_kernel_fit, grids['log60'], noisy, KPATH, 2)
run("negative_loading", psdk.psd_dft_kernel_fit, grids['log60'], -load, KPATH, 2)
run("constant_loading", psdk.psd_dft_kernel_fit, grids['log60'], numpy.full(60, 3.0), KPATH, 1)
run("nan_loading", psdk.psd_dft_kernel_fit, grids['log60'], numpy.full(60, numpy.nan), KPATH, 1)
run("inf_loading", psdk.psd_dft_kernel_fit, grids['log60'], numpy.full(60, numpy.inf), KPATH, 1)
run("huge_loading", psdk.psd_dft_kernel_fit, grids['log60'], load * 1e8, KPATH, 3)

# container types
run("lists", psdk.psd_dft_kernel_fit, list(grids['log15']), list(combo(grids['log15'], weights['sparse3'])), KPATH, 2)
run("tuples", psdk.psd_dft_kernel_fit, tuple(grids['log15']), tuple(combo(grids['log15'], weights['sparse3'])), KPATH, 0)
run(
    "series", psdk.psd_dft_kernel_fit, pandas.Series(grids['log15']),
    pandas.Series(combo(grids['log15'], weights['sparse3'])), KPATH, 1
)
run(
    "int_loading", psdk.psd_dft_kernel_fit, grids['lin25'],
    numpy.round(combo(grids['lin25'], weights['dense_random'])).astype(int), KPATH, 2
)
run("path_as_str", psdk.psd_dft_kernel_fit, grids['log15'], combo(grids['log15'], weights['single30']), str(KPATH), 2)

# error paths
run("empty", psdk.psd_dft_kernel_fit, [], [], KPATH, 2)
run("empty_arrays", psdk.psd_dft_kernel_fit, numpy.array([]), numpy.array([]), KPATH, 2)
run("mismatch", psdk.psd_dft_kernel_fit, [0.1, 0.2, 0.3], [1.0, 2.0], KPATH, 2)
run("mismatch2", psdk.psd_dft_kernel_fit, [0.1], [], KPATH, 2)
run("above_range", psdk.psd_dft_kernel_fit, [0.1, 0.5, 0.999], [1.0, 2.0, 3.0], KPATH, 2)
run("at_upper_bound", psdk.psd_dft_kernel_fit, [0.1, 0.5, kp[-1]], [1.0, 2.0, 3.0], KPATH, 2)
run("way_above", psdk.psd_dft_kernel_fit, [0.1, 0.5, 10.0], [1.0, 2.0, 3.0], KPATH, 2)
run("negative_p", psdk.psd_dft_kernel_fit, [-0.1, 0.5, 0.9], [1.0, 2.0, 3.0], KPATH, 2)
run("nan_p", psdk.psd_dft_kernel_fit, [numpy.nan, 0.5, 0.9], [1.0, 2.0, 3.0], KPATH, 2)
run("no_file", psdk.psd_dft_kernel_fit, [0.1, 0.5, 0.9], [1.0, 2.0, 3.0], os.path.join(HERE, 'no_such_kernel.csv'), 2)
run("none_path", psdk.psd_dft_kernel_fit, [0.1, 0.5, 0.9], [1.0, 2.0, 3.0], None, 2)
run("none_pressure", psdk.psd_dft_kernel_fit, None, [1.0], KPATH, 2)
run("string_loading", psdk.psd_dft_kernel_fit, [0.1, 0.5, 0.9], ['a', 'b', 'c'], KPATH, 2)

# ---- user-supplied kernels
tmpfiles = []


def write_kernel(name, frame):
    path = os.path.join(HERE, name)
    frame.to_csv(path)
    tmpfiles.append(path)
    return path


try:
    # subset kernels: columns subset, rows subset
    small = write_kernel('tmp1_small.csv', raw.iloc[::4, ::8])
    one = write_kernel('tmp1_onecol.csv', raw.iloc[:, [30]])
    two = write_kernel('tmp1_twocol.csv', raw.iloc[::2, [10, 60]])
    badhead = raw.iloc[::4, :5].copy()
    badhead.columns = ['a', 'b', 'c', 'd', 'e']
    bad = write_kernel('tmp1_badheader.csv', badhead)
    scaled = raw.iloc[:, ::5].copy()
    scaled.index = scaled.index * 1.5  # absolute-like pressure range up to ~1.5
    wide = write_kernel('tmp1_wide.csv', scaled)
    nocols = write_kernel('tmp1_nocols.csv', raw.iloc[:, []])

    for name, path in (('small', small), ('one', one), ('two', two), ('wide', wide)):
        kern = psdk._load_kernel(path)
        nk = len(kern)
        for tag, wv in (
            ('zero', numpy.zeros(nk)),
            ('first', numpy.eye(nk)[0] * 0.03),
            ('last', numpy.eye(nk)[-1] * 0.01),
            ('dense', numpy.linspace(0.001, 0.003, nk)),
        ):
            for gname in ('log15', 'lin25', 'three'):
                grid = grids[gname]
                pts = numpy.asarray([kern[s](grid) for s in kern])
                load = (pts * wv[:, None]).sum(axis=0)
                for order in (0, 1, 2, 3):
                    run(f"user[{name}|{tag}|{gname}|k={order}]", psdk.psd_dft_kernel_fit, grid, load, path, order)
    run("user_wide_above_1", psdk.psd_dft_kernel_fit, [0.1, 1.2, 1.45], [1.0, 5.0, 6.0], wide, 2)
    run("user_wide_out", psdk.psd_dft_kernel_fit, [0.1, 1.2, 1.6], [1.0, 5.0, 6.0], wide, 2)
    run("user_badheader", psdk.psd_dft_kernel_fit, [0.1, 0.2, 0.3], [1.0, 2.0, 3.0], bad, 2)
    run("user_badheader_out", psdk.psd_dft_kernel_fit, [0.1, 0.2, 3.0], [1.0, 2.0, 3.0], bad, 2)
    run("user_nocols", psdk.psd_dft_kernel_fit, [0.1, 0.2, 0.3], [1.0, 2.0, 3.0], nocols, 2)
finally:
    for path in tmpfiles:
        if os.path.exists(path):
            os.remove(path)

print("loaded kernels:", sorted(os.path.basename(str(k)) for k in psdk._LOADED))
