"""Differential script for C09-2 (deletion functions: shared condition dict, loops over table/column pairs).

Prints a deterministic transcript; run on the untouched and the patched tree.
"""
import logging
import os
import shutil
import sqlite3
import sys
import tempfile

import pygaps
from pygaps.parsing import sqlite as pgsql
from pygaps.utilities.exceptions import ParsingError
from pygaps.utilities.sqlite_db_pragmas import PRAGMAS
from pygaps.utilities.sqlite_utilities import db_execute_general

TMP = tempfile.mkdtemp(prefix='c09_2_')


def norm(text):
    return str(text).replace(TMP, '<TMP>')


class Capture(logging.Handler):
    def emit(self, record):
        print(f"    LOG {record.levelname}: {norm(record.getMessage())!r}")


pygaps.logger.handlers[:] = [Capture()]
pygaps.logger.setLevel(logging.DEBUG)


def dump(path):
    """Full content of a database, deterministic."""
    con = sqlite3.connect(path)
    try:
        tables = [
            r[0] for r in
            con.execute("SELECT name FROM sqlite_master WHERE type='table' ORDER BY name")
        ]
        for tb in tables:
            if tb == 'sqlite_sequence':
                continue
            rows = con.execute(f'SELECT * FROM "{tb}"').fetchall()
            if rows:
                print(f"    TABLE {tb}: {sorted(rows, key=repr)!r}")
    finally:
        con.close()


def new_db(name):
    path = os.path.join(TMP, name)
    for pragma in PRAGMAS:
        db_execute_general(pragma, path)
    for tp in ('isotherm', 'pointisotherm', 'modelisotherm'):
        pgsql.isotherm_type_to_db({'type': tp}, db_path=path, verbose=False)
    return path


def chain(err):
    out = []
    while err is not None:
        out.append(f"{type(err).__module__}.{type(err).__name__}: {norm(err)!r}")
        nxt = err.__cause__
        if nxt is None and not err.__suppress_context__:
            nxt = err.__context__
        err = nxt
    return ' <- '.join(out)


def run(label, fn, *args, **kwargs):
    print(f"CALL {label}")
    try:
        ret = fn(*args, **kwargs)
        print(f"    RET {norm(repr(ret))}")
    except BaseException as err:  # noqa
        print(f"    EXC {chain(err)}")



class Opaque:
    """Something sqlite cannot bind, with a stable repr."""
    def __repr__(self):
        return 'Opaque()'


class Proxy:
    """Cursor proxy: logs every statement, optionally fails at the n-th one."""
    def __init__(self, cur, fail_at=None, fail_with=None):
        self._cur = cur
        self._n = 0
        self._fail_at = fail_at
        self._fail_with = fail_with

    def execute(self, sql, params=()):
        self._n += 1
        print(f"    SQL#{self._n} {sql!r} {params!r}")
        if self._fail_at == self._n:
            raise self._fail_with
        self._cur.execute(sql, params)
        return self._cur

    def __getattr__(self, name):
        return getattr(self._cur, name)

    def __iter__(self):
        return iter(self._cur)


def fill(path):
    """Two materials, two adsorbates, three isotherms and some types."""
    for tp in ('t1', 't2'):
        pgsql.adsorbate_property_type_to_db({'type': tp, 'unit': 'u' + tp}, db_path=path, verbose=False)
        pgsql.material_property_type_to_db({'type': tp, 'description': 'd' + tp}, db_path=path, verbose=False)
        pgsql.isotherm_type_to_db({'type': tp}, db_path=path, verbose=False)
    isos = []
    for mat in ('mA', 'mB'):
        pgsql.material_to_db(pygaps.Material(mat, density=1.5, t1='x'), db_path=path, verbose=False)
    for ads in ('adsA', 'adsB'):
        pgsql.adsorbate_to_db(pygaps.Adsorbate(ads, formula='F', t2=[1, 2]), db_path=path, verbose=False)
    for mat, ads, temp in (('mA', 'adsA', 77), ('mA', 'adsB', 87), ('mB', 'adsB', 97)):
        iso = pygaps.PointIsotherm(
            isotherm_data=__import__('pandas').DataFrame({
                'p': [1, 2, 3, 2, 1], 'l': [1.5, 2.5, 3.5, 3.0, 2.0], 'enth': [5., 4., 3., 2., 1.],
            }), pressure_key='p', loading_key='l',
            material=mat, adsorbate=ads,
            temperature=temp, pressure_mode='absolute', pressure_unit='bar', material_basis='mass',
            material_unit='g', loading_basis='molar', loading_unit='mmol', temperature_unit='K',
            flag=True, note='n',
        )
        pgsql.isotherm_to_db(iso, db_path=path, verbose=False)
        isos.append(iso)
    model = pygaps.ModelIsotherm(
        model=pygaps.modelling.get_isotherm_model(
            'Henry', parameters={'K': 2.0}, pressure_range=(0, 1), loading_range=(0, 2), rmse=0.0),
        material='mB', adsorbate='adsA', temperature=300, pressure_mode='absolute',
        pressure_unit='bar', material_basis='mass', material_unit='g', loading_basis='molar',
        loading_unit='mmol', temperature_unit='K',
    )
    pgsql.isotherm_to_db(model, db_path=path, verbose=False)
    isos.append(model)
    base = pygaps.core.baseisotherm.BaseIsotherm(
        material='mB', adsorbate='adsA', temperature=310, pressure_mode='absolute',
        pressure_unit='bar', material_basis='mass', material_unit='g', loading_basis='molar',
        loading_unit='mmol', temperature_unit='K',
    )
    pgsql.isotherm_to_db(base, db_path=path, verbose=False)
    isos.append(base)
    return isos


def with_proxy(label, path, fn, *args, fail_at=None, fail_with=None, **kwargs):
    """Run fn on a logged cursor inside our own connection, roll back afterwards."""
    con = sqlite3.connect(path)
    con.row_factory = sqlite3.Row
    cur = con.cursor()
    cur.execute('PRAGMA foreign_keys = ON')
    run(label, fn, *args, cursor=Proxy(cur, fail_at, fail_with), **kwargs)
    print("    in_transaction", con.in_transaction)
    con.rollback()
    con.close()


pygaps.logger.setLevel(logging.WARNING)
DB = new_db('main.db')
ISOS = fill(DB)
DEFAULT = new_db('default.db')
pgsql.DATABASE = DEFAULT
pygaps.logger.setLevel(logging.DEBUG)
print("-- initial"); dump(DB)
n_mat, n_ads = len(pygaps.MATERIAL_LIST), len(pygaps.ADSORBATE_LIST)

ERRS = [
    sqlite3.OperationalError('disk I/O error'),
    sqlite3.IntegrityError('FOREIGN KEY constraint failed'),
    sqlite3.InterfaceError('iface'),
    sqlite3.DatabaseError('db'),
    MemoryError('mem'),
]

print("== statement sequences and failures at each statement (proxy cursor)")
for verbose in (True, False):
    with_proxy(f"isotherm_delete_db obj verbose={verbose}", DB, pgsql.isotherm_delete_db, ISOS[0], verbose=verbose)
with_proxy("isotherm_delete_db id", DB, pgsql.isotherm_delete_db, ISOS[1].iso_id)
with_proxy("isotherm_delete_db model", DB, pgsql.isotherm_delete_db, ISOS[3])
with_proxy("isotherm_delete_db missing", DB, pgsql.isotherm_delete_db, 'nothere')
with_proxy("isotherm_delete_db None", DB, pgsql.isotherm_delete_db, None)
with_proxy("isotherm_delete_db unbindable", DB, pgsql.isotherm_delete_db, Opaque())
for k in range(1, 6):
    for e in ERRS:
        with_proxy(f"isotherm_delete_db fail@{k} {type(e).__name__}", DB, pgsql.isotherm_delete_db,
                   ISOS[2], fail_at=k, fail_with=e)

with_proxy("adsorbate_delete_db in use", DB, pgsql.adsorbate_delete_db, ISOS[0].adsorbate)
with_proxy("adsorbate_delete_db str in use", DB, pgsql.adsorbate_delete_db, 'adsB')
with_proxy("adsorbate_delete_db missing", DB, pgsql.adsorbate_delete_db, 'nothere')
with_proxy("adsorbate_delete_db unbindable", DB, pgsql.adsorbate_delete_db, 3.5j)
for k in range(1, 5):
    for e in ERRS:
        with_proxy(f"adsorbate_delete_db fail@{k} {type(e).__name__}", DB, pgsql.adsorbate_delete_db,
                   'adsA', fail_at=k, fail_with=e)

for name, table in (
    ('adsorbate_property_type_delete_db', 'adsorbate_properties_type'),
    ('material_property_type_delete_db', 'material_properties_type'),
    ('isotherm_type_delete_db', 'isotherm_type'),
    ('isotherm_property_type_delete_db', 'isotherm_properties_type'),
):
    fn = getattr(pgsql, name)
    for arg in ('t1', 't2', 'nothere', None, 5, '', "x'y", ('a', ), Opaque()):
        for verbose in (True, False):
            with_proxy(f"{name} {arg!r} verbose={verbose}", DB, fn, arg, verbose=verbose)
    for k in range(1, 4):
        for e in ERRS:
            with_proxy(f"{name} fail@{k} {type(e).__name__}", DB, fn, 't2', fail_at=k, fail_with=e)

print("== _delete_by_id directly")
with_proxy("direct", DB, lambda cursor: pgsql._delete_by_id(cursor, 'isotherm_type', 'type', 't2', 'things', True))
with_proxy("direct id col", DB, lambda cursor: pgsql._delete_by_id(cursor, 'isotherm_type', 'id', 1, 'things', False))
with_proxy("direct bad table", DB, lambda cursor: pgsql._delete_by_id(cursor, 'nope', 'id', 1, 'things', False))
with_proxy("direct bad column", DB, lambda cursor: pgsql._delete_by_id(cursor, 'isotherm_type', 'nope', 1, 'things', False))
with_proxy("direct extra kwargs", DB, lambda cursor: pgsql._delete_by_id(cursor, 'isotherm_type', 'type', 't1', 'things', True, spare=1))
print("-- unchanged after proxies"); dump(DB)

print("== real connections: statement rejected by the storage layer (triggers)")


def trigger(path, table, when='BEFORE'):
    con = sqlite3.connect(path)
    con.execute(f"CREATE TRIGGER boom {when} DELETE ON {table} BEGIN SELECT RAISE(ABORT, 'boom on {table}'); END")
    con.commit()
    con.close()


def untrigger(path):
    con = sqlite3.connect(path)
    con.execute("DROP TRIGGER boom")
    con.commit()
    con.close()


for table in ('isotherm_data', 'isotherm_properties', 'isotherms'):
    for when in ('BEFORE', 'AFTER'):
        trigger(DB, table, when)
        run(f"isotherm_delete_db with {when} trigger on {table}", pgsql.isotherm_delete_db, ISOS[0], DB)
        run(f"isotherm_delete_db(model) with {when} trigger on {table}", pgsql.isotherm_delete_db, ISOS[3], db_path=DB)
        untrigger(DB)
        dump(DB)
for table in ('adsorbate_properties', 'adsorbates'):
    trigger(DB, table)
    run(f"adsorbate_delete_db with trigger on {table}", pgsql.adsorbate_delete_db, 'adsA', DB)
    untrigger(DB)
    dump(DB)
for table, name in (
    ('adsorbate_properties_type', 'adsorbate_property_type_delete_db'),
    ('material_properties_type', 'material_property_type_delete_db'),
    ('isotherm_type', 'isotherm_type_delete_db'),
):
    trigger(DB, table)
    run(f"{name} with trigger", getattr(pgsql, name), 't2', DB)
    untrigger(DB)
    dump(DB)

print("== real connections: refusals by foreign keys, then full successful teardown")
run("delete type in use (ads prop)", pgsql.adsorbate_property_type_delete_db, 't2', DB)
run("delete type in use (mat prop)", pgsql.material_property_type_delete_db, 't1', db_path=DB)
run("delete type in use (iso type)", pgsql.isotherm_type_delete_db, 'pointisotherm', DB)
run("delete unused type", pgsql.isotherm_type_delete_db, 't1', DB)
run("delete unused type again", pgsql.isotherm_type_delete_db, 't1', DB)
run("delete adsorbate in use", pgsql.adsorbate_delete_db, ISOS[0].adsorbate, DB)
run("delete material in use", pgsql.material_delete_db, ISOS[0].material, DB)
dump(DB)
for iso in ISOS:
    run("delete isotherm " + type(iso).__name__, pgsql.isotherm_delete_db, iso, DB)
    run("delete isotherm again", pgsql.isotherm_delete_db, iso.iso_id, DB, False)
dump(DB)
for ads in ('adsA', ISOS[1].adsorbate, 'adsA', 'nothere'):
    run(f"delete adsorbate {ads}", pgsql.adsorbate_delete_db, ads, DB)
for mat in ('mA', ISOS[2].material, 'mA'):
    run(f"delete material {mat}", pgsql.material_delete_db, mat, DB)
run("delete type now unused (ads prop)", pgsql.adsorbate_property_type_delete_db, 't2', DB)
run("delete on default db", pgsql.isotherm_type_delete_db, 'isotherm')
run("delete on default db missing", pgsql.isotherm_delete_db, 'x')
print("-- final main"); dump(DB)
print("-- final default"); dump(DEFAULT)
print("list growth", len(pygaps.MATERIAL_LIST) - n_mat, len(pygaps.ADSORBATE_LIST) - n_ads)
print("repeatable: re-upload after teardown")
pygaps.logger.setLevel(logging.WARNING)
run("re-fill", lambda: [i.iso_id for i in fill(DB)] == [i.iso_id for i in ISOS])
dump(DB)

shutil.rmtree(TMP, ignore_errors=True)
